//go:build sim_shutdown || simall

package verifsim

// W:shutdown - property C17: every way a connection ends unblocks callers, informs the
// peer, frees resources.
//
// Scenario = close cause x set of concurrently blocked API calls x timing x network faults on the
// closing exchange x idle / keep-alive periods. Every oracle is evaluated from ground truth: the
// router log (what was delivered when), the independent wiretap (which CONNECTION_CLOSE frames
// were on the wire) and the public API (errors, context causes, virtual timestamps).
//
// Bounds used by the oracles (simulated time; the bubble's clock only advances when every
// goroutine is durably blocked, so "the same instant" means "without any timer or network event"):
//   shutPrompt   = 1 ms : a blocked call returns no later than 1 ms after Context() is done,
//                         a call issued afterwards returns within 1 ms
//   closing period      : 3 x PTO (PTO from the endpoint's own ConnectionStats) + 1 ms
//   idle lower bound    : min(advertised local, advertised peer) (read off the wire) - 1 ms after
//                         the delivery of the last packet the endpoint acknowledged
//   idle upper bound    : max(last delivery, first ack-eliciting packet sent after it)
//                         + configured MaxIdleTimeout + 3 PTO + 2 ms
//   handshake idle      : [HandshakeIdleTimeout - 1 ms, HandshakeIdleTimeout + 2 ms] in the same way
//   handshake timeout   : no earlier than 2 x HandshakeIdleTimeout - 1 ms after creation

import (
	"bytes"
	"context"
	"errors"
	"fmt"
	"math/bits"
	"os"
	"slices"
	"strings"
	"sync"
	"testing"
	"time"

	quic "github.com/refraction-networking/uquic"
	"github.com/refraction-networking/uquic/testutils/simnet"
	tls "github.com/refraction-networking/utls"
)

const (
	shutPrompt    = int64(time.Millisecond)
	shutDoneCode  = 0x5d
	shutDoneMsg   = "done"
	shutMaxWrites = 96
)

type ShutActor struct {
	Side int    `json:"side"`
	Kind string `json:"kind"` // read write accept acceptdrain acceptuni open openuni rcvdgram snddgram ping
	AtMS int64  `json:"at,omitempty"`
	N    int    `json:"n,omitempty"`
}

type ShutScenario struct {
	Seed          uint64      `json:"seed"`
	Cfg           WConfig     `json:"cfg"`
	Net           WNet        `json:"net"`
	Faults        []WFault    `json:"faults"`
	Class         string      `json:"class"` // exact | faulty
	Cause         string      `json:"cause"`
	Base          string      `json:"base"` // dial: AtUS counts from the start of Dial; est: from the moment both applications hold the connection
	Side          int         `json:"side"` // acting side (0 client, 1 server)
	AtUS          int64       `json:"at_us"`
	Code          uint64      `json:"code"`
	Reason        string      `json:"reason,omitempty"`
	AcceptDelayMS int64       `json:"accept_delay_ms,omitempty"`
	ResetKey      bool        `json:"reset_key,omitempty"`
	PokeUS        int64       `json:"poke_us,omitempty"`
	ResetLen      int         `json:"reset_len,omitempty"` // cause reset: > 0 = the restarted server's reset is a forged one of exactly this many bytes (21 = the smallest valid)
	FinalSide     int         `json:"final_side"`
	ProbesIn      int         `json:"probes_in,omitempty"`
	ProbesLate    int         `json:"probes_late,omitempty"`
	Actors        []ShutActor `json:"actors"`
}

func (s *ShutScenario) KSeed() uint64 { return s.Seed }

func init() {
	KRegister(&KSim{Name: "shutdown", New: func() KScenario { return &ShutScenario{} }, Gen: shutGen, Run: shutRunSim})
}

var shutCauses = []struct {
	name string
	base string
	w    int
}{
	{"close", "est", 24}, {"proto", "est", 8}, {"idle", "est", 8}, {"keepalive", "est", 6}, {"outage", "est", 6}, {"reset", "est", 8},
	{"tr-close", "est", 6}, {"tr-close", "dial", 5}, {"ln-close", "dial", 8}, {"dial-cancel", "dial", 7},
	{"alpn", "dial", 4}, {"cert", "dial", 4}, {"hs-silent-server", "dial", 4}, {"hs-silent-client", "dial", 4}, {"hs-slow", "dial", 4},
}

var shutKinds = []string{"read", "write", "accept", "acceptdrain", "acceptuni", "open", "openuni", "rcvdgram", "snddgram", "read", "write"}

func shutGen(seed uint64, tier string) KScenario {
	r := NewKRng(seed)
	sc := &ShutScenario{Seed: seed}
	genCommonCfg(r, &sc.Cfg)
	switch x := r.N(100); {
	case x < 68:
		sc.Cfg.Client = "plain"
	case x < 90:
		sc.Cfg.Client = "unil"
	default:
		sc.Cfg.Client = "chrome115"
		sc.Cfg.ClientCIDLen = 4
		sc.Cfg.Version = 1
	}
	spec := sc.Cfg.Client == "chrome115"
	sc.Class = "faulty"
	if r.P(0.45) {
		sc.Class = "exact"
	}
	genNet(r, &sc.Net, false)
	if sc.Class == "exact" {
		sc.Net.Drop, sc.Net.Dup, sc.Net.Delay, sc.Net.Corrupt, sc.Net.Trunc = 0, 0, 0, 0, 0
	} else {
		sc.Net.FaultUntilMS = int64(r.Pick(0, 0, 400, 3000))
	}
	sc.Cfg.SchedNum = 0
	if r.P(0.4) {
		sc.Cfg.SchedNum = uint32(r.Pick(16, 64, 128))
	}
	// small windows so that writers block on flow control; small stream limits so that OpenStreamSync blocks
	sc.Cfg.Win, sc.Cfg.MaxWin = [4]uint64{}, [4]uint64{}
	if !spec && r.P(0.75) {
		w := uint64(r.Pick(2000, 8000, 30000))
		sc.Cfg.Win = [4]uint64{w, w * uint64(r.Pick(1, 2, 4)), w, w * uint64(r.Pick(1, 2, 4))}
		sc.Cfg.MaxWin = sc.Cfg.Win
	}
	if !spec {
		sc.Cfg.MaxStreams = [2]int64{int64(r.Pick(1, 2, 3, 10)), int64(r.Pick(1, 2, 3, 10))}
		sc.Cfg.MaxUniStreams = [2]int64{int64(r.Pick(1, 2, 3, 10)), int64(r.Pick(1, 2, 3, 10))}
	} else {
		sc.Cfg.MaxStreams[1], sc.Cfg.MaxUniStreams[1] = int64(r.Pick(1, 2, 3, 10)), int64(r.Pick(1, 2, 3, 10))
	}
	dg := r.P(0.6)
	sc.Cfg.Datagrams = [2]bool{dg || spec, dg}
	if r.P(0.25) {
		sc.Cfg.Datagrams[r.N(2)] = !spec && r.Bool() // one side only receives, the other only sends
	}
	idles := []int{2000, 3000, 5000, 8000, 15000, 30000, 0}
	sc.Cfg.IdleMS = [2]int64{int64(idles[r.N(len(idles))]), int64(idles[r.N(len(idles))])}
	if spec {
		sc.Cfg.IdleMS[0] = 0 // the spec advertises 30 s
		if r.P(0.5) {
			// ... or nothing at all (max_idle_timeout suppressed: "no idle timeout" on the client's part): the period both
			// sides run with is then the server's alone
			sc.Cfg.Derive = &WDerive{Suppress: []uint64{0x01}}
		}
	}
	for k := 0; k < 2; k++ {
		if r.P(0.3) {
			sc.Cfg.KeepAliveMS[k] = int64(r.Pick(1, 500, 2000, 60000))
		}
		if r.P(0.2) {
			sc.Cfg.HSIdleMS[k] = int64(r.Pick(1000, 2000, 5000))
		}
	}
	// cause
	tot := 0
	for _, c := range shutCauses {
		tot += c.w
	}
	x := r.N(tot)
	for _, c := range shutCauses {
		if x < c.w {
			sc.Cause, sc.Base = c.name, c.base
			break
		}
		x -= c.w
	}
	sc.Side = r.N(2)
	rtt := 2*sc.Net.LatencyUS + sc.Net.JitterUS
	if sc.Base == "est" {
		sc.AtUS = int64(r.Pick(0, 1, 50, int(rtt/2), int(rtt), 3000, 20000, 150000, 800000))
	} else {
		sc.AtUS = r.N64(4*rtt + 3000)
		if r.P(0.15) {
			sc.AtUS = int64(r.Pick(0, 1, int(rtt/2), int(rtt)))
		}
	}
	codes := []uint64{0, 1, 0x5e, 0x3fff, 1 << 30, 1<<62 - 1}
	sc.Code = codes[r.N(len(codes))]
	sc.Reason = []string{"", "bye", "going away: über reason", strings.Repeat("r", 60), strings.Repeat("long reason ", 17)}[r.N(5)]
	if r.P(0.3) {
		sc.AcceptDelayMS = int64(r.Pick(5, 50, 400))
	}
	sc.ResetKey = r.P(0.5)
	sc.FinalSide = r.N(2)
	sc.ProbesIn = r.Pick(0, 1, 2, 3, 5, 7)
	sc.ProbesLate = r.Pick(0, 2, 5, 9)
	maxIdle := max(nzIdle(sc.Cfg.IdleMS[0]), nzIdle(sc.Cfg.IdleMS[1]))
	switch sc.Cause {
	case "keepalive":
		// both idle periods >= 5 s (a smaller advertised value is raised to 5 s by the peer, which then spaces its
		// keep-alives for 5 s), keep-alive on at least one side
		for k := 0; k < 2; k++ {
			sc.Cfg.IdleMS[k] = int64(r.Pick(5000, 8000, 15000))
			sc.Cfg.KeepAliveMS[k] = 0
		}
		if spec {
			sc.Cfg.IdleMS[0] = 0
		}
		k := r.N(2)
		sc.Cfg.KeepAliveMS[k] = int64(r.Pick(1, 500, 2000, 60000))
		if r.P(0.3) {
			sc.Cfg.KeepAliveMS[1-k] = int64(r.Pick(1, 500, 2000, 60000))
		}
		if sc.Class == "faulty" {
			sc.Net.FaultUntilMS = int64(r.Pick(400, 3000))
		}
	case "idle":
		sc.Cfg.KeepAliveMS = [2]int64{}
	case "outage":
		sc.Cfg.KeepAliveMS = [2]int64{}
		if r.P(0.3) {
			sc.Cfg.KeepAliveMS[r.N(2)] = int64(r.Pick(500, 60000))
		}
		sc.Net.Outages = []WOutage{{Dir: r.N(3), FromMS: 1500, ToMS: 1500 + maxIdle + 4000}}
		sc.Actors = append(sc.Actors, ShutActor{Side: r.N(2), Kind: "ping"})
	case "reset":
		sc.ResetKey = true
		sc.PokeUS = int64(r.Pick(0, 100, 5000, 200000))
		sc.ResetLen = r.Pick(0, 0, 0, 21, 22, 25, 38, 41, 42, 43, 100, 1200)
	case "hs-silent-server":
		sc.Net.Outages = []WOutage{{Dir: 1, FromMS: 0, ToMS: 1000000}}
	case "hs-silent-client":
		sc.Net.Outages = []WOutage{{Dir: 0, FromMS: 1, ToMS: 1000000}}
	case "hs-slow":
		sc.Cfg.ChainLen = r.Pick(24, 30)
		sc.Cfg.Retry = false
		sc.Net.LatencyUS, sc.Net.JitterUS = 80000, 0
		h := int64(r.Pick(170, 200, 230))
		sc.Cfg.HSIdleMS = [2]int64{h, int64(r.Pick(0, int(h)))}
	}
	// the cause fires during (or shortly before / after) an outage
	if sc.Class == "faulty" && len(sc.Net.Outages) == 0 && sc.Base == "est" && sc.hasAction() && r.P(0.25) {
		from := int64(r.Pick(50, 200, 500, 900))
		sc.Net.Outages = []WOutage{{Dir: r.N(3), FromMS: from, ToMS: from + int64(r.Pick(100, 1000, int(maxIdle)+1000))}}
	}
	// blocked calls
	n := r.Pick(0, 1, 2, 3, 4, 6, 8)
	for i := 0; i < n; i++ {
		a := ShutActor{Side: r.N(2), Kind: shutKinds[r.N(len(shutKinds))], AtMS: int64(r.Pick(0, 0, 0, 1, 10, 100)), N: r.Pick(3, 20, 60, shutMaxWrites)}
		if spec && a.Side == 1 && (a.Kind == "write" || a.Kind == "open" || a.Kind == "openuni" || a.Kind == "snddgram") {
			// a spec-driven client enforces its Config, not what its spec advertises (known C12 finding): keep the server
			// from exercising the client's limits
			a.Kind = "read"
		}
		sc.Actors = append(sc.Actors, a)
	}
	return sc
}

// ---------------------------------------------------------------- execution state

type shutCall struct {
	side    int
	kind    string
	later   bool
	startNS int64
	retNS   int64
	done    bool
	err     error
}

// shutEnd observes the end of one connection through its context.
type shutEnd struct {
	ctx       context.Context
	createdNS int64
	doneNS    int64 // -1 while the connection runs
	cause     error
	doneCh    chan struct{}
}

type shutClose struct {
	code   uint64
	reason string
	callNS int64
	retNS  int64
}

type shutSide struct {
	conn      *quic.Conn
	availNS   int64
	end       *shutEnd
	streams   []*quic.Stream
	closes    []shutClose
	probesNS  []int64 // injected probe datagrams (times)
	probeHead []byte  // first bytes of the last injected probe
	lateNS    int64   // time of the first late probe (0 = none)
	probeLen  int
	pto       time.Duration // PTO without max_ack_delay, from the connection's own statistics at its end
}

type shutCtxKey struct{}

var (
	errShutCancel  = errors.New("verif: dial cancelled by the application")
	errShutHorizon = errors.New("verif: dial horizon reached")
)

type shutRun struct {
	sc    *ShutScenario
	w     *World
	nodes *Nodes
	res   *KResult
	on    map[string]bool

	mu      sync.Mutex
	calls   []*shutCall
	sides   [2]*shutSide
	srv     []*shutEnd // server-side connections in creation order (from Transport.ConnContext)
	newSrv  chan struct{}
	stop    chan struct{}
	actx    context.Context
	acancel context.CancelFunc
	wg      sync.WaitGroup

	t0NS          int64
	dialCancel    context.CancelCauseFunc
	dialCancelNS  int64 // when the scripted cancellation happened (0 = never)
	srvReady      chan struct{}
	lnCloseNS     [2]int64 // call, return
	trCloseNS     [2][2]int64
	trClosed      [2]bool
	resetDone     bool
	last1RTT      [2][]byte // last datagram carrying a 1-RTT packet, per direction (the peer's current connection ID)
	last1RTTdcid  [2][]byte // destination connection ID of that datagram
	lastDCID      [2][]byte // destination connection ID of the sender's most recent 1-RTT packet
	lastBig       [2][]byte // the last one large enough to be answered by a stateless reset
	extraTr       []*quic.Transport
	forgedResetNS int64
	extraConns    []*simnet.SimConn
	aliveAt       [2]bool
	aliveChecked  bool
	causeFiredNS  int64
	resetKey      quic.StatelessResetKey
	hsIdle        [2]time.Duration
	cfgIdle       [2]time.Duration
	giveUpNS      int64
	rdl           []interface{ SetReadDeadline(time.Time) error }
	wdl           []interface{ SetWriteDeadline(time.Time) error }
	protoNS       int64
	protoCode     uint64
	protoCodeAlt  uint64 // a second code accepted for the misbehaviour (0: none)
	lastPkt       [2]*TapPacket
	afterWG       sync.WaitGroup
	deferred      [][2]string
}

func (s *shutRun) now() int64 { return s.w.NowNS() }

// stamp: a timestamp that is never 0 (0 means "did not happen")
func (s *shutRun) stamp() int64 { return max(s.w.NowNS(), 1) }

// known: a defect of the unchanged tree that has been analysed (see the findings); SHUT_HIDE_KNOWN=1 turns these
// into notes while the workload itself is being debugged.
func (s *shutRun) known(sig, f string, a ...any) {
	if os.Getenv("SHUT_HIDE_KNOWN") != "" {
		s.res.Note("C17 known: " + sig)
		return
	}
	s.report(sig, f, a...)
}

func (s *shutRun) report(sig, f string, a ...any) {
	if s.on["C17"] || s.on["all"] {
		s.res.Fail(sig, f, a...)
	} else {
		s.res.Note("C17: " + sig)
	}
}

// sleep waits for d of simulated time; false when the run is being torn down.
func (s *shutRun) sleep(d time.Duration) bool {
	if d <= 0 {
		select {
		case <-s.stop:
			return false
		default:
			return true
		}
	}
	t := time.NewTimer(d)
	defer t.Stop()
	select {
	case <-t.C:
		return true
	case <-s.stop:
		return false
	}
}

func (s *shutRun) call(side int, kind string, later bool, fn func() error) error {
	c := &shutCall{side: side, kind: kind, later: later, startNS: s.now()}
	s.mu.Lock()
	s.calls = append(s.calls, c)
	s.mu.Unlock()
	err := fn()
	s.mu.Lock()
	c.retNS, c.done, c.err = s.now(), true, err
	s.mu.Unlock()
	return err
}

func (s *shutRun) addStream(side int, st *quic.Stream) {
	s.mu.Lock()
	s.sides[side].streams = append(s.sides[side].streams, st)
	s.rdl = append(s.rdl, st)
	s.wdl = append(s.wdl, st)
	s.mu.Unlock()
}

func (s *shutRun) newEnd(ctx context.Context) *shutEnd {
	e := &shutEnd{ctx: ctx, createdNS: s.now(), doneNS: -1, doneCh: make(chan struct{})}
	go func() {
		select {
		case <-ctx.Done():
		case <-s.stop:
			return
		}
		s.mu.Lock()
		e.doneNS, e.cause = s.now(), context.Cause(ctx)
		s.mu.Unlock()
		close(e.doneCh)
	}()
	return e
}

func (e *shutEnd) isDone() bool {
	select {
	case <-e.doneCh:
		return true
	default:
		return false
	}
}

// ---------------------------------------------------------------- actors (blocked calls)

func (s *shutRun) datagramsOn() bool { return s.sc.Cfg.Datagrams[0] && s.sc.Cfg.Datagrams[1] }

func (s *shutRun) actor(side int, a ShutActor) {
	defer s.wg.Done()
	conn := s.sides[side].conn
	if conn == nil || !s.sleep(time.Duration(a.AtMS)*time.Millisecond) {
		return
	}
	ctx := s.actx
	openBidi := func() *quic.Stream {
		var st *quic.Stream
		if s.call(side, "open", false, func() error { var e error; st, e = conn.OpenStreamSync(ctx); return e }) != nil {
			return nil
		}
		s.addStream(side, st)
		return st
	}
	drain := func(kind string, rd interface{ Read([]byte) (int, error) }) {
		defer s.wg.Done()
		buf := make([]byte, 16384)
		for {
			if s.call(side, kind, false, func() error { _, e := rd.Read(buf); return e }) != nil {
				return
			}
		}
	}
	switch a.Kind {
	case "read":
		st := openBidi()
		if st == nil {
			return
		}
		if s.call(side, "write", false, func() error { _, e := st.Write([]byte{1}); return e }) != nil {
			return
		}
		buf := make([]byte, 64)
		s.call(side, "read", false, func() error { _, e := st.Read(buf); return e })
	case "write", "ping":
		var wr interface{ Write([]byte) (int, error) }
		if a.Kind == "write" && a.N%2 == 1 {
			var st *quic.SendStream
			if s.call(side, "openuni", false, func() error { var e error; st, e = conn.OpenUniStreamSync(ctx); return e }) != nil {
				return
			}
			s.mu.Lock()
			s.wdl = append(s.wdl, st)
			s.mu.Unlock()
			wr = st
		} else {
			st := openBidi()
			if st == nil {
				return
			}
			wr = st
		}
		if a.Kind == "ping" {
			b := wPayload(s.sc.Seed, 0, 100)
			for {
				if s.call(side, "write", false, func() error { _, e := wr.Write(b); return e }) != nil || !s.sleep(300*time.Millisecond) {
					return
				}
			}
		}
		b := wPayload(s.sc.Seed, 0, 16384)
		n := min(max(a.N, 1), shutMaxWrites)
		if win := s.sc.Cfg.Win[(1-side)*2]; win > 0 {
			n = min(n, int(24*win/16384)+1) // tiny windows move a window per round trip: keep the transfer short
		}
		for i := 0; i < n; i++ {
			if s.call(side, "write", false, func() error { _, e := wr.Write(b); return e }) != nil {
				return
			}
		}
	case "accept", "acceptdrain":
		for {
			var st *quic.Stream
			if s.call(side, "accept", false, func() error { var e error; st, e = conn.AcceptStream(ctx); return e }) != nil {
				return
			}
			s.addStream(side, st)
			if a.Kind == "acceptdrain" {
				s.wg.Add(1)
				go drain("read", st)
			}
		}
	case "acceptuni":
		for {
			var st *quic.ReceiveStream
			if s.call(side, "acceptuni", false, func() error { var e error; st, e = conn.AcceptUniStream(ctx); return e }) != nil {
				return
			}
			s.mu.Lock()
			s.rdl = append(s.rdl, st)
			s.mu.Unlock()
			if a.N%2 == 0 {
				s.wg.Add(1)
				go drain("read", st)
			}
		}
	case "open":
		for i := 0; i < 110; i++ {
			if openBidi() == nil {
				return
			}
		}
	case "openuni":
		for i := 0; i < 110; i++ {
			if s.call(side, "openuni", false, func() error { _, e := conn.OpenUniStreamSync(ctx); return e }) != nil {
				return
			}
		}
	case "rcvdgram":
		if !s.datagramsOn() {
			return
		}
		for {
			if s.call(side, "rcvdgram", false, func() error { _, e := conn.ReceiveDatagram(ctx); return e }) != nil {
				return
			}
		}
	case "snddgram":
		// (what matters for sending is that the peer accepts datagrams; the local setting only governs receiving)
		if !s.sc.Cfg.Datagrams[1-side] {
			return
		}
		b := wPayload(s.sc.Seed, 7, 900)
		for i := 0; i < 4*max(a.N, 1); i++ {
			before := s.now()
			if s.call(side, "snddgram", false, func() error { return conn.SendDatagram(b) }) != nil {
				return
			}
			if s.now() > before {
				s.res.Probe("SendDatagram-blocked-on-full-queue")
			}
		}
	}
}

// laterCalls issues one call of every kind on a connection that has ended. Every call runs in a goroutine of its
// own so that one that (wrongly) blocks does not hold up the rest; it is released at the end of the run and reported
// by the judge.
func (s *shutRun) laterCalls(side int) {
	sd := s.sides[side]
	conn := sd.conn
	ctx := s.actx
	s.mu.Lock()
	var st *quic.Stream
	if len(sd.streams) > 0 {
		st = sd.streams[0]
	}
	s.mu.Unlock()
	late := func(kind string, fn func() error) error {
		done := make(chan error, 1)
		s.wg.Add(1)
		go func() {
			defer s.wg.Done()
			done <- s.call(side, kind, true, fn)
		}()
		tm := time.NewTimer(2 * time.Millisecond)
		defer tm.Stop()
		select {
		case err := <-done:
			return err
		case <-tm.C:
			return errors.New("stuck")
		}
	}
	if st != nil {
		buf := make([]byte, 16)
		late("read", func() error { _, e := st.Read(buf); return e })
		late("write", func() error { _, e := st.Write(buf); return e })
	}
	late("accept", func() error { _, e := conn.AcceptStream(ctx); return e })
	late("acceptuni", func() error { _, e := conn.AcceptUniStream(ctx); return e })
	late("open", func() error { _, e := conn.OpenStreamSync(ctx); return e })
	late("openuni", func() error { _, e := conn.OpenUniStreamSync(ctx); return e })
	late("open-nosync", func() error { _, e := conn.OpenStream(); return e })
	late("openuni-nosync", func() error { _, e := conn.OpenUniStream(); return e })
	if s.datagramsOn() {
		// datagrams queued before the end may still be handed out; then the error
		for i := 0; i < 200; i++ {
			if late("rcvdgram", func() error { _, e := conn.ReceiveDatagram(ctx); return e }) != nil {
				break
			}
		}
	}
	if s.sc.Cfg.Datagrams[1-side] {
		late("snddgram", func() error { return conn.SendDatagram([]byte("late datagram")) })
	}
}

// afterEnd runs on every connection the application holds once its context is done: later calls, probes
// inside the closing period, later calls and probes after it.
func (s *shutRun) afterEnd(side int) {
	defer s.afterWG.Done()
	sd := s.sides[side]
	select {
	case <-sd.end.doneCh:
	case <-s.stop:
		return
	}
	s.laterCalls(side)
	pto := shutPTO(sd.conn, 0)
	s.mu.Lock()
	sd.pto = pto
	probe := s.last1RTT[1-side]
	big := s.lastBig[1-side]
	if !bytes.Equal(s.last1RTTdcid[1-side], s.lastDCID[1-side]) {
		// the probe material is addressed to a connection ID the peer has retired since (its later packets were all too
		// large to serve as probes): the endpoint does not route it any more, silence is right
		probe, big = nil, nil
		s.res.Probe("probe-material-uses-a-retired-connection-id")
	}
	s.mu.Unlock()
	inject := func(n int) bool {
		for i := 0; i < n && probe != nil; i++ {
			s.mu.Lock()
			sd.probesNS = append(sd.probesNS, s.now())
			sd.probeLen = len(probe)
			sd.probeHead = append([]byte{}, probe[:min(len(probe), 12)]...)
			s.mu.Unlock()
			s.w.InjectTo(1-side, probe) // InjectTo(to): 0 = to the server, 1 = to the client
			if !s.sleep(20 * time.Microsecond) {
				return false
			}
		}
		return true
	}
	if !inject(s.sc.ProbesIn) {
		return
	}
	wait := 3*pto + 2*time.Millisecond
	if wait > 4*time.Second {
		return // closing period too long to sit out
	}
	if !s.sleep(time.Duration(sd.end.doneNS+int64(wait)-s.now()) + time.Millisecond) {
		return
	}
	s.laterCalls(side)
	probe = big
	s.mu.Lock()
	if s.sc.ProbesLate > 0 && probe != nil {
		sd.lateNS = s.now()
	}
	s.mu.Unlock()
	if !inject(s.sc.ProbesLate) {
		return
	}
	s.sleep(time.Millisecond)
}

func shutPTO(c *quic.Conn, maxAckDelay time.Duration) time.Duration {
	st := c.ConnectionStats()
	pto := st.SmoothedRTT + max(4*st.MeanDeviation, time.Millisecond)
	if st.MeanDeviation == 0 {
		// no RTT sample yet (the smoothed value is the initial one, or one restored from a token): twice the
		// initial RTT (RFC 9002 6.2.2). A deviation that decayed to zero lands here too: the larger value only
		// loosens the upper bounds it is used for.
		pto = max(pto, 200*time.Millisecond)
	}
	return pto + maxAckDelay
}

// ---------------------------------------------------------------- scripted cause

func (s *shutRun) closeConn(side int, code uint64, reason string) {
	sd := s.sides[side]
	if sd.conn == nil {
		return
	}
	s.mu.Lock()
	sd.closes = append(sd.closes, shutClose{code: code, reason: reason, callNS: s.now(), retNS: -1})
	i := len(sd.closes) - 1
	s.mu.Unlock()
	sd.conn.CloseWithError(quic.ApplicationErrorCode(code), reason)
	s.mu.Lock()
	sd.closes[i].retNS = s.now()
	s.mu.Unlock()
}

func (s *shutRun) closeTransport(side int) {
	s.mu.Lock()
	if s.trClosed[side] {
		s.mu.Unlock()
		return
	}
	s.trClosed[side] = true
	s.trCloseNS[side][0] = s.stamp()
	s.mu.Unlock()
	if side == 0 {
		s.nodes.CTr.Close()
	} else {
		s.nodes.STr.Close()
	}
	s.mu.Lock()
	s.trCloseNS[side][1] = s.stamp()
	s.mu.Unlock()
	if side == 0 {
		// a Dial on the closed transport fails at once
		s.call(0, "dial-later", true, func() error {
			c, e := s.nodes.Dial(s.actx)
			if e == nil {
				c.CloseWithError(0, "")
			}
			return e
		})
	}
	// the application closes its socket as well (nobody reads from it any more)
	if side == 0 {
		s.nodes.CConn.Close()
	} else {
		s.nodes.SConn.Close()
	}
}

func (s *shutRun) causeAction(atNS int64) {
	defer s.wg.Done()
	if !s.sleep(time.Duration(atNS - s.now())) {
		return
	}
	sc := s.sc
	s.mu.Lock()
	s.causeFiredNS = s.stamp()
	s.mu.Unlock()
	switch sc.Cause {
	case "close":
		s.closeConn(sc.Side, sc.Code, sc.Reason)
	case "tr-close":
		s.closeTransport(sc.Side)
	case "proto":
		// the peer of sc.Side misbehaves: a packet sealed with the connection's real keys carrying a frame that a
		// conformant stack never sends (the observer knows the keys from the key log)
		if pkt := s.sealMisbehaving(sc.Side); pkt != nil {
			s.mu.Lock()
			s.protoNS = s.stamp()
			s.mu.Unlock()
			s.w.InjectTo(1-sc.Side, pkt)
		}
	case "ln-close":
		s.mu.Lock()
		s.lnCloseNS[0] = s.stamp()
		s.mu.Unlock()
		s.nodes.Ln.Close()
		s.mu.Lock()
		s.lnCloseNS[1] = s.stamp()
		s.mu.Unlock()
	case "dial-cancel":
		s.mu.Lock()
		s.dialCancelNS = s.stamp()
		s.mu.Unlock()
		s.dialCancel(errShutCancel)
	case "reset":
		// the server loses its state: transport closed, a new one on the same address with the same reset key
		s.closeTransport(1)
		pc := simnet.NewBlockingSimConn(wServerAddr, s.w)
		key := s.resetKey
		tr := &quic.Transport{Conn: pc, ConnectionIDLength: sc.Cfg.ServerCIDLen, StatelessResetKey: &key}
		ln, err := tr.Listen(s.nodes.STLS, s.nodes.SQ)
		s.mu.Lock()
		s.extraTr = append(s.extraTr, tr)
		s.extraConns = append(s.extraConns, pc)
		s.resetDone = err == nil
		s.mu.Unlock()
		if err != nil {
			s.res.Fail("harness: second Listen failed", "%v", err)
			return
		}
		_ = ln
		if !s.sleep(time.Duration(sc.PokeUS) * time.Microsecond) {
			return
		}
		if sc.ResetLen >= 21 {
			// a stateless reset of a chosen size, as a peer may send it (RFC 9000, 10.3: at least 21 bytes, unpredictable bits,
			// the token of the connection ID the client addresses the server by in the last 16 bytes)
			if tok := s.clientsResetToken(); tok != nil {
				kr := NewKRng(KMix(sc.Seed, 0x57a7e1e55))
				pkt := kr.Bytes(sc.ResetLen - 16)
				pkt[0] = 0x40 | pkt[0]&0x3f
				pkt = append(pkt, tok...)
				s.mu.Lock()
				s.forgedResetNS = s.now()
				s.mu.Unlock()
				s.w.InjectTo(1, pkt)
				s.res.Probe(fmt.Sprintf("forged-stateless-reset-%d-bytes", sc.ResetLen))
				return
			}
			s.res.Probe("forged-stateless-reset-no-token-known")
		}
		// the client application sends something large enough to be answered by a stateless reset
		s.mu.Lock()
		var st *quic.Stream
		if cs := s.sides[0]; len(cs.streams) > 0 {
			st = cs.streams[0]
		}
		s.mu.Unlock()
		b := wPayload(sc.Seed, 3, 300)
		if c := s.sides[0].conn; c != nil && s.datagramsOn() {
			s.call(0, "snddgram", false, func() error { return c.SendDatagram(b) })
		}
		if st != nil {
			s.call(0, "write", false, func() error { _, e := st.Write(b); return e })
		}
	}
}

// clientsResetToken: the stateless-reset token that belongs to the connection ID the client currently addresses the server by,
// read off the wire (stateless_reset_token transport parameter for the handshake ID, NEW_CONNECTION_ID frames for later ones).
func (s *shutRun) clientsResetToken() []byte {
	s.w.mu.Lock()
	defer s.w.mu.Unlock()
	s.w.Tap.mu.Lock()
	defer s.w.Tap.mu.Unlock()
	var dcid []byte
	var conn *TapConn
	for _, p := range s.w.Tap.All {
		if p.Dir == 0 && p.Type == Tap1RTT && p.Opened && p.Conn != nil && !p.Conn.Shadow {
			dcid, conn = p.DCID, p.Conn
		}
	}
	if conn == nil || len(dcid) == 0 {
		return nil
	}
	for _, p := range conn.Packets {
		if p.Dir != 1 {
			continue
		}
		for i := range p.Frames {
			if f := &p.Frames[i]; f.Name == "NEW_CONNECTION_ID" && bytes.Equal(f.CID, dcid) && len(f.Token) == 16 {
				return append([]byte{}, f.Token...)
			}
		}
	}
	if bytes.Equal(dcid, conn.ServerSCID) {
		if tp, ok := tapTP(conn.SrvTP, 0x02); ok && len(tp.Val) == 16 {
			return append([]byte{}, tp.Val...)
		}
	}
	return nil
}

// sealMisbehaving builds a 1-RTT packet from the peer of `victim` that violates a limit: a STREAM frame far beyond the
// stream limit (STREAM_LIMIT_ERROR) or a MAX_STREAMS frame with an impossible value (FRAME_ENCODING_ERROR).
func (s *shutRun) sealMisbehaving(victim int) []byte {
	d := 1 - victim // direction = sender
	s.w.mu.Lock()
	defer s.w.mu.Unlock()
	s.w.Tap.mu.Lock()
	defer s.w.Tap.mu.Unlock()
	s.mu.Lock()
	last := s.lastPkt[d]
	s.mu.Unlock()
	if last == nil || last.Conn == nil || len(last.Conn.appKeys[d]) == 0 {
		return nil
	}
	c := last.Conn
	k := c.appKeys[d][c.phase[d]]
	pn := uint64(c.largest[d][2] + 40)
	var payload []byte
	// the highest connection ID the server has issued and the client has (certainly) been delivered: still in reserve
	var ncid *TapFrame
	if KMix(s.sc.Seed, 0x77)%3 == 0 && victim == 0 {
		for _, p := range c.Packets {
			if p.Dir != 1 || !p.Opened || len(s.w.Log[1][p.Ord].Delivered) == 0 || s.w.Log[1][p.Ord].Damaged {
				continue
			}
			for i := range p.Frames {
				if f := &p.Frames[i]; f.Name == "NEW_CONNECTION_ID" && len(f.CID) > 0 && (ncid == nil || f.Seq > ncid.Seq) {
					ncid = f
				}
			}
		}
	}
	if ncid != nil && ncid.Seq >= 2 && ncid.Seq < 60 {
		// NEW_CONNECTION_ID for that sequence number with other contents: an error the library raises as a plain Go error
		// and turns into a transport error while closing - every observer of the close must see the same cause
		payload = []byte{0x18, byte(ncid.Seq), 0, byte(len(ncid.CID))}
		for range ncid.CID {
			payload = append(payload, 0xab)
		}
		for i := 0; i < 16; i++ {
			payload = append(payload, 0xcd)
		}
		s.res.Probe("misbehaviour-conflicting-new-connection-id")
		s.protoCode, s.protoCodeAlt = 0x0a, 0x01 // (RFC 9000 19.15 says PROTOCOL_VIOLATION; the library reports INTERNAL_ERROR)
	} else if s.sc.Code%2 == 0 {
		id := uint64(4000 + d) // a stream initiated by the sender, far beyond any limit of this workload
		payload = []byte{0x0a, byte(0x40 | id>>8), byte(id), 1, 0x55}
		s.protoCode = 0x04
	} else {
		payload = []byte{0x12, 0xd0, 0, 0, 0, 0, 0, 0, 1} // MAX_STREAMS 2^60+1
		s.protoCode = 0x07
	}
	hdr := []byte{0x40 | byte(c.phase[d]&1)<<2 | 3}
	hdr = append(hdr, last.DCID...)
	pnOff := len(hdr)
	hdr = append(hdr, byte(pn>>24), byte(pn>>16), byte(pn>>8), byte(pn))
	nonce := append([]byte{}, k.iv...)
	for i := 0; i < 8; i++ {
		nonce[len(nonce)-1-i] ^= byte(pn >> (8 * i))
	}
	pkt := append(append([]byte{}, hdr...), k.aead.Seal(nil, nonce, payload, hdr)...)
	m := k.mask(pkt[pnOff+4 : pnOff+20])
	pkt[0] ^= m[0] & 0x1f
	for i := 0; i < 4; i++ {
		pkt[pnOff+i] ^= m[1+i]
	}
	return pkt
}

// ---------------------------------------------------------------- run

func (sc *ShutScenario) hasAction() bool {
	switch sc.Cause {
	case "close", "tr-close", "ln-close", "dial-cancel", "reset", "proto":
		return true
	}
	return false
}

func shutRunSim(t *testing.T, ksc KScenario, res *KResult) {
	sc := ksc.(*ShutScenario)
	wBegin(&sc.Cfg)
	defer wEnd()
	w := NewWorld(t, sc.Seed, &sc.Net, res)
	w.SetFaults(sc.Faults)
	nodes, err := NewNodes(w, &sc.Cfg)
	if err != nil {
		res.Fail("spec could not be built", "%v", err)
		return
	}
	wo := NewWireOracles(w, nodes, res)
	wo.on = wOraclesEnabled("C17")
	s := &shutRun{sc: sc, w: w, nodes: nodes, res: res, on: wo.on, newSrv: make(chan struct{}, 64), stop: make(chan struct{}), srvReady: make(chan struct{})}
	s.sides[0], s.sides[1] = &shutSide{}, &shutSide{}
	s.actx, s.acancel = context.WithCancel(context.Background())
	for k := 0; k < 2; k++ {
		s.hsIdle[k] = hsIdle(&sc.Cfg, k)
		s.cfgIdle[k] = time.Duration(nzIdle(sc.Cfg.IdleMS[k])) * time.Millisecond
	}
	if d := sc.Cfg.Derive; d != nil && slices.Contains(d.Suppress, 0x01) {
		// a client that advertises no idle timeout runs with the server's (which it raises to 5 s if smaller)
		s.cfgIdle[0] = max(s.cfgIdle[1], 5*time.Second)
	}
	// remember the last datagram carrying a 1-RTT packet per direction (material for late-packet probes)
	oldSend := w.OnSend
	w.OnSend = func(rec *DgramRec, data []byte) {
		if oldSend != nil {
			oldSend(rec, data)
		}
		if len(rec.Pkts) >= 1 && rec.Pkts[len(rec.Pkts)-1].Type == Tap1RTT && rec.Pkts[len(rec.Pkts)-1].Opened {
			s.lastDCID[rec.Dir] = append([]byte{}, rec.Pkts[len(rec.Pkts)-1].DCID...) // the connection ID the sender uses now
		}
		if len(rec.Pkts) == 1 && rec.Pkts[0].Type == Tap1RTT && rec.Pkts[0].Opened && len(data) < 400 {
			ok := true
			for i := range rec.Pkts[0].Frames {
				if n := rec.Pkts[0].Frames[i].Name; n == "CONNECTION_CLOSE" || n == "CONNECTION_CLOSE_APP" {
					ok = false
				}
			}
			if ok {
				s.lastPkt[rec.Dir] = rec.Pkts[0]
				s.last1RTT[rec.Dir] = append([]byte{}, data...)
				s.last1RTTdcid[rec.Dir] = append([]byte{}, rec.Pkts[0].DCID...)
				if len(data) > 60 {
					s.lastBig[rec.Dir] = s.last1RTT[rec.Dir]
				}
			}
		}
	}
	// server-side connections are observed from their creation on (also the ones the application never accepts)
	nodes.STr.ConnContext = func(ctx context.Context, _ *quic.ClientInfo) (context.Context, error) {
		e := s.newEnd(ctx)
		s.mu.Lock()
		idx := len(s.srv)
		s.srv = append(s.srv, e)
		s.mu.Unlock()
		select {
		case s.newSrv <- struct{}{}:
		default:
		}
		return context.WithValue(ctx, shutCtxKey{}, idx), nil
	}
	kr := NewKRng(KMix(sc.Seed, 0x5e7))
	copy(s.resetKey[:], kr.Bytes(32))
	if sc.ResetKey {
		k1, k2 := s.resetKey, s.resetKey
		k2[0] ^= 0xff
		nodes.STr.StatelessResetKey = &k1
		nodes.CTr.StatelessResetKey = &k2
	}
	switch sc.Cause {
	case "alpn":
		nodes.STLS.NextProtos = []string{"verif-other"}
	case "cert":
		nodes.CTLS.RootCAs = wGenPKI(0).pool // a CA that did not sign the server's certificate
	}
	w.StartDriver()
	defer func() {
		close(s.stop)
		s.acancel()
		nodes.Close()
		for _, tr := range s.extraTr {
			tr.Close()
		}
		for _, pc := range s.extraConns {
			pc.Close()
		}
		w.Stop()
		if !sc.Net.Explicit {
			sc.Net.Explicit = true
			sc.Faults = w.Fired
		}
		wo.Finish()
		w.FeedShape()
	}()
	if err := nodes.Listen(); err != nil {
		res.Fail("Listen failed", "%v", err)
		return
	}
	s.execute()
	s.judge()
	if len(s.deferred) > 0 && !res.Failed() && res.Blocked == "" {
		s.known(s.deferred[0][0], "%s", s.deferred[0][1])
	}
	s.trace()
	// every goroutine of the workload ends now; one that cannot (a call that no deadline and no context releases)
	// makes the bubble report a leak - after the judge has named the call
	s.wg.Wait()
	s.checkDrained()
}

// checkDrained: (5) resources. Every connection the applications held has ended. Whatever else the transports still route -
// closing-period handlers, connections created by delayed Initials or never accepted - goes away by its closing period, its
// handshake timeout or its idle timeout. After the longest of those nothing may be left in a transport that is still open:
// no routed connection ID, no closed-connection handler, no stateless-reset token (read through the overlay accessor
// quic.VerifTransportTables).
func (s *shutRun) checkDrained() {
	if s.res.Failed() || s.res.Blocked != "" || !(s.on["C17"] || s.on["all"]) {
		return
	}
	for k := 0; k < 2; k++ {
		if c := s.sides[k].conn; c != nil && c.Context().Err() == nil {
			s.res.Probe("tables-not-checked-a-connection-is-still-alive")
			return
		}
	}
	type tt struct {
		name string
		tr   *quic.Transport
	}
	var trs []tt
	if !s.trClosed[0] {
		trs = append(trs, tt{"client transport", s.nodes.CTr})
	}
	if !s.trClosed[1] {
		trs = append(trs, tt{"server transport", s.nodes.STr})
	}
	s.mu.Lock()
	for _, tr := range s.extraTr {
		trs = append(trs, tt{"restarted server transport", tr})
	}
	s.mu.Unlock()
	bound := max(s.cfgIdle[0], s.cfgIdle[1]) + 2*max(s.hsIdle[0], s.hsIdle[1]) + 10*time.Second
	// closed-connection handlers stay for three PTOs of their connection, and a round-trip sample taken across an outage
	// makes that long: allow for it generously (the handlers of connections the applications never saw have comparable ones)
	for k := 0; k < 2; k++ {
		if c := s.sides[k].conn; c != nil {
			bound += 6 * shutPTO(c, 25*time.Millisecond)
		}
	}
	t0 := time.Now()
	for {
		left := ""
		for _, x := range trs {
			if live, closed, tok := quic.VerifTransportTables(x.tr); live+closed+tok > 0 {
				left = fmt.Sprintf("%s: %d connection IDs routed to connections, %d to closed-connection handlers, %d stateless-reset tokens", x.name, live, closed, tok)
				break
			}
		}
		if left == "" {
			s.res.Probe("tables-drained")
			return
		}
		if time.Since(t0) > bound {
			s.report("(5) a transport still holds state of connections long after all of them have ended", "%s, %v after the last connection of the applications ended (cause %s/%s)", left, time.Since(t0), s.sc.Cause, s.sc.Base)
			return
		}
		time.Sleep(250 * time.Millisecond)
	}
}

func (s *shutRun) startSide(side int, conn *quic.Conn, end *shutEnd) {
	sd := s.sides[side]
	s.mu.Lock()
	sd.conn, sd.availNS, sd.end = conn, s.now(), end
	s.mu.Unlock()
	s.afterWG.Add(1)
	go s.afterEnd(side)
	for _, a := range s.sc.Actors {
		if a.Side == side {
			s.wg.Add(1)
			go s.actor(side, a)
		}
	}
}

func (s *shutRun) acceptor() {
	defer s.wg.Done()
	if !s.sleep(time.Duration(s.sc.AcceptDelayMS) * time.Millisecond) {
		return
	}
	first := true
	for {
		var c *quic.Conn
		if s.call(1, "lnaccept", false, func() error { var e error; c, e = s.nodes.Ln.Accept(s.actx); return e }) != nil {
			return
		}
		if !first {
			// a second connection (from a delayed or duplicated ClientHello): nobody will use it
			s.wg.Add(1)
			go func() { defer s.wg.Done(); <-s.actx.Done(); c.CloseWithError(shutDoneCode, shutDoneMsg) }()
			continue
		}
		first = false
		idx, _ := c.Context().Value(shutCtxKey{}).(int)
		s.mu.Lock()
		var end *shutEnd
		if idx < len(s.srv) {
			end = s.srv[idx]
		}
		s.mu.Unlock()
		if end == nil {
			end = s.newEnd(c.Context())
		}
		s.startSide(1, c, end)
		close(s.srvReady)
	}
}

func (s *shutRun) pendingEnd() <-chan struct{} {
	s.mu.Lock()
	defer s.mu.Unlock()
	if e := s.sides[0].end; e != nil && !e.isDone() {
		return e.doneCh
	}
	for _, e := range s.srv {
		if !e.isDone() {
			return e.doneCh
		}
	}
	return nil
}

// waitEnds waits until every known connection has ended or d has passed.
func (s *shutRun) waitEnds(d time.Duration) {
	if d <= 0 {
		return
	}
	tm := time.NewTimer(d)
	defer tm.Stop()
	for {
		ch := s.pendingEnd()
		if ch == nil {
			// nothing pending right now; a server connection may still be created by a packet in flight
			select {
			case <-s.newSrv:
				continue
			case <-tm.C:
				return
			case <-time.After(2*time.Duration(s.sc.Net.LatencyUS+s.sc.Net.JitterUS)*time.Microsecond + 1300*time.Millisecond):
				if s.pendingEnd() == nil {
					return
				}
				continue
			}
		}
		select {
		case <-ch:
		case <-s.newSrv:
		case <-tm.C:
			return
		}
	}
}

func (s *shutRun) execute() {
	sc := s.sc
	maxIdle := max(s.cfgIdle[0], s.cfgIdle[1])
	time.Sleep(time.Microsecond) // no event of the run carries the timestamp 0
	s.t0NS = s.now()
	dctx, dcancel := context.WithCancelCause(context.Background())
	s.dialCancel = dcancel
	defer dcancel(nil)
	dialDone := make(chan struct{})
	// Dial is bounded by the handshake timeout; the horizon only catches a Dial that never returns
	dialHorizon := 2*s.hsIdle[0] + 3*time.Second
	s.wg.Add(2)
	go func() {
		defer s.wg.Done()
		tm := time.NewTimer(dialHorizon)
		defer tm.Stop()
		select {
		case <-tm.C:
			dcancel(errShutHorizon)
		case <-dialDone:
		case <-s.stop:
		}
	}()
	go s.acceptor()
	if sc.Base == "dial" && sc.hasAction() {
		s.wg.Add(1)
		go s.causeAction(s.t0NS + sc.AtUS*1000)
	}
	var conn *quic.Conn
	derr := s.call(0, "dial", false, func() error { var e error; conn, e = s.nodes.Dial(dctx); return e })
	close(dialDone)
	if derr != nil {
		e := &shutEnd{createdNS: s.t0NS, doneNS: s.now(), cause: derr, doneCh: make(chan struct{})}
		close(e.doneCh)
		s.mu.Lock()
		s.sides[0].end = e
		s.mu.Unlock()
	} else {
		s.res.Probe("dial-ok")
		end := s.newEnd(conn.Context())
		end.createdNS = s.t0NS
		// a stream for the reset scenario's poke (opened before any actor can use up the stream limit)
		if sc.Cause == "reset" {
			if st, err := conn.OpenStreamSync(s.actx); err == nil {
				s.sides[0].streams = append(s.sides[0].streams, st)
				st.Write([]byte{2})
			}
		}
		s.startSide(0, conn, end)
	}
	// establishment: both applications hold the connection
	established := false
	if derr == nil {
		tm := time.NewTimer(2*s.hsIdle[1] + 3*time.Second + time.Duration(sc.AcceptDelayMS)*time.Millisecond)
		select {
		case <-s.srvReady:
			established = true
			s.res.Probe("established")
		case <-s.sides[0].end.doneCh:
		case <-tm.C:
		}
		tm.Stop()
	}
	horizon := 2*maxIdle + 3*time.Second // a keep-alive sent into the void restarts the idle period once
	if established {
		estNS := s.now()
		if sc.Base == "est" && sc.hasAction() {
			s.wg.Add(1)
			go s.causeAction(estNS + sc.AtUS*1000)
			horizon += time.Duration(sc.AtUS+sc.PokeUS) * time.Microsecond
		}
		if sc.Cause == "keepalive" {
			// left idle for 3 x the idle timeout (the larger of the two configured values)
			if s.sleep(3 * maxIdle) {
				s.mu.Lock()
				s.aliveChecked = true
				for k := 0; k < 2; k++ {
					s.aliveAt[k] = s.sides[k].conn.Context().Err() == nil
				}
				s.mu.Unlock()
			}
			horizon = 0
		}
		if sc.Cause == "outage" {
			horizon += 1500 * time.Millisecond
		}
	} else {
		horizon = 2*max(s.hsIdle[0], s.hsIdle[1]) + maxIdle + 2*time.Second
	}
	s.waitEnds(horizon)
	// whatever is still running is closed by the application now: first one side, the other learns it from the
	// peer (or closes itself after waiting for its idle period)
	order := []int{sc.FinalSide, 1 - sc.FinalSide}
	for i, k := range order {
		sd := s.sides[k]
		if sd.conn == nil || sd.end.isDone() {
			continue
		}
		s.res.Probe("final-close")
		s.closeConn(k, shutDoneCode, shutDoneMsg)
		if o := s.sides[order[1]]; i == 0 && o.conn != nil && !o.end.isDone() {
			tm := time.NewTimer(s.cfgIdle[order[1]] + 3*time.Second)
			select {
			case <-o.end.doneCh:
			case <-tm.C:
			}
			tm.Stop()
		}
	}
	// connections the server application never got (handshake never completed) end by their own timeouts
	s.waitEnds(2*s.hsIdle[1] + time.Second)
	// let the after-end sequences (later calls, probes) finish: bounded by the closing periods
	s.afterWG.Wait()
	s.sleep(time.Millisecond)
	// give up: calls that are still blocked now are released through their context / a deadline so that the run
	// can end; the judge reports them from the call records (they returned later than the bound allows)
	s.mu.Lock()
	s.giveUpNS = s.now()
	s.mu.Unlock()
	s.acancel()
	time.Sleep(time.Millisecond)
	s.mu.Lock()
	stuck := false
	for _, c := range s.calls {
		if !c.done {
			stuck = true
		}
	}
	rdl, wdl := s.rdl, s.wdl
	s.mu.Unlock()
	if stuck {
		for _, st := range rdl {
			st.SetReadDeadline(time.Now().Add(-time.Second))
		}
		for _, st := range wdl {
			st.SetWriteDeadline(time.Now().Add(-time.Second))
		}
		time.Sleep(time.Millisecond)
	}
}

// ---------------------------------------------------------------- judge

func shutClass(err error) string {
	var ae *quic.ApplicationError
	var te *quic.TransportError
	var ie *quic.IdleTimeoutError
	var he *quic.HandshakeTimeoutError
	var sr *quic.StatelessResetError
	var vn *quic.VersionNegotiationError
	switch {
	case err == nil:
		return "alive"
	case errors.As(err, &ie):
		return "idle"
	case errors.As(err, &he):
		return "hs-timeout"
	case errors.As(err, &sr):
		return "reset"
	case errors.As(err, &vn):
		return "vn"
	case errors.As(err, &ae):
		if ae.Remote {
			return "app-remote"
		}
		return "app-local"
	case errors.As(err, &te):
		if te.Remote {
			return "tr-remote"
		}
		return "tr-local"
	case errors.Is(err, quic.ErrTransportClosed):
		return "tr-closed"
	case errors.Is(err, quic.ErrServerClosed):
		return "ln-closed"
	case errors.Is(err, errShutCancel):
		return "dial-cancelled"
	case errors.Is(err, errShutHorizon):
		return "dial-horizon"
	case errors.Is(err, context.Canceled), errors.Is(err, context.DeadlineExceeded):
		return "ctx"
	}
	return "other"
}

// shutSameCause: does the error returned by a call report the connection's recorded cause (same type, code,
// reason, Remote flag)?
func shutSameCause(err, cause error) bool {
	if err == nil || cause == nil {
		return false
	}
	cl := shutClass(cause)
	if shutClass(err) != cl {
		return false
	}
	switch cl {
	case "app-local", "app-remote":
		var a, b *quic.ApplicationError
		errors.As(err, &a)
		errors.As(cause, &b)
		return a.ErrorCode == b.ErrorCode && a.ErrorMessage == b.ErrorMessage && a.Remote == b.Remote
	case "tr-local", "tr-remote":
		var a, b *quic.TransportError
		errors.As(err, &a)
		errors.As(cause, &b)
		return a.ErrorCode == b.ErrorCode && a.ErrorMessage == b.ErrorMessage && a.Remote == b.Remote && a.FrameType == b.FrameType
	case "other", "ctx":
		return errors.Is(err, cause) || err.Error() == cause.Error()
	}
	return true
}

type shutCC struct {
	dir         int
	main        bool
	ord         int
	sentNS      int64
	deliveredNS int64 // first intact delivery, -1 = never
	maybeNS     int64 // first delivery in which the packet was not itself damaged (its framing may have been), -1 = never
	ptype       int
	app         bool
	code        uint64
	reason      string
	ftype       uint64
}

type shutView struct {
	has      bool
	handle   bool
	end      *shutEnd
	done     bool
	doneNS   int64
	cause    error
	class    string
	complete int64 // when the handshake completed on this side (0 = never / unknown)
}

func (s *shutRun) judge() {
	sc, w := s.sc, s.w
	s.mu.Lock()
	defer s.mu.Unlock()
	w.mu.Lock()
	defer w.mu.Unlock()
	if s.res.Failed() {
		return
	}
	s.res.Fault("cause-" + sc.Cause)
	if s.causeFiredNS > 0 {
		when := "after-handshake"
		for _, c := range s.calls {
			if c.kind == "dial" && (!c.done || s.causeFiredNS <= c.retNS) {
				when = "during-handshake"
			}
		}
		rtt := 2 * (sc.Net.LatencyUS + sc.Net.JitterUS) * 1000
		if when == "after-handshake" {
			for d := 0; d < 2; d++ {
				for _, rec := range w.Log[d] {
					if rec.SentNS >= s.causeFiredNS-rtt && rec.SentNS <= s.causeFiredNS {
						for _, p := range rec.Pkts {
							for i := range p.Frames {
								if p.Frames[i].Name == "STREAM" && p.Frames[i].Length > 500 {
									when = "mid-transfer"
								}
							}
						}
					}
				}
			}
		}
		s.res.Probe("timing:" + sc.Cause + ":" + when)
		for _, o := range sc.Net.Outages {
			if ms := s.causeFiredNS / 1e6; ms >= o.FromMS && ms < o.ToMS {
				s.res.Probe("timing:" + sc.Cause + ":during-outage")
			}
		}
	}
	var tc *TapConn
	for _, c := range w.Tap.Conns {
		if !c.Shadow {
			tc = c
			break
		}
	}
	// ---- views
	var v [2]*shutView
	mk := func(e *shutEnd, handle bool) *shutView {
		x := &shutView{has: e != nil, handle: handle, end: e}
		if e != nil && e.isDone() {
			x.done, x.doneNS, x.cause = true, e.doneNS, e.cause
		}
		x.class = shutClass(x.cause)
		return x
	}
	v[0] = mk(s.sides[0].end, s.sides[0].conn != nil)
	switch {
	case s.sides[1].conn != nil:
		v[1] = mk(s.sides[1].end, true)
	case len(s.srv) == 1:
		v[1] = mk(s.srv[0], false)
	default:
		v[1] = mk(nil, false)
		if len(s.srv) > 1 {
			s.res.Probe("several-server-connections-none-accepted")
		}
	}
	var dial *shutCall
	for _, c := range s.calls {
		if c.kind == "dial" {
			dial = c
		}
	}
	if dial != nil && dial.done && dial.err == nil {
		v[0].complete = dial.retNS
	}
	if tc != nil {
		for _, p := range tc.Packets {
			if p.Dir == 1 && p.Type == Tap1RTT && v[1].complete == 0 {
				for i := range p.Frames {
					if p.Frames[i].Name == "HANDSHAKE_DONE" {
						v[1].complete = max(p.SentNS, 1)
					}
				}
			}
		}
	}
	if v[1].complete == 0 && s.sides[1].conn != nil {
		v[1].complete = max(s.sides[1].availNS, 1) // Accept returned it: the handshake was complete by then
	}
	// The observer follows the first server-side connection. If that one died and the client completed its handshake
	// with a second one (grown from a retransmitted ClientHello), the observer cannot open the connection's packets:
	// every wire-based clause is skipped for such a run.
	if tc != nil {
		for _, rec := range w.Log[0] {
			for _, p := range rec.Pkts {
				if !p.Opened && (p.Type == TapUnknown || p.Type == Tap1RTT) && (!v[0].done || rec.SentNS < v[0].doneNS) {
					tc = nil
				}
			}
		}
		if tc == nil {
			s.res.Probe("observer-lost-the-connection")
		}
	}
	for k := 0; k < 2; k++ {
		if v[k].has {
			s.res.Probe("end:" + v[k].class)
		}
	}
	s.res.Logf("cause %s/%s side %d at %dus class %s: client end %s (%v) at %v, server end %s (%v) at %v, %d server conns, complete %v/%v", sc.Cause, sc.Base, sc.Side, sc.AtUS, sc.Class,
		v[0].class, v[0].cause, time.Duration(v[0].doneNS), v[1].class, v[1].cause, time.Duration(v[1].doneNS), len(s.srv), time.Duration(v[0].complete), time.Duration(v[1].complete))
	if s.res.KeepLog {
		for _, p := range w.Tap.All {
			rec := w.Log[p.Dir][p.Ord]
			s.res.Logf("  %d %s {%s-> %v}", p.SentNS/1000, p.String(), rec.Fate, rec.Delivered)
		}
		for _, c := range s.calls {
			s.res.Logf("  call side %d %s later=%v start %v ret %v done=%v err=%v", c.side, c.kind, c.later, time.Duration(c.startNS), time.Duration(c.retNS), c.done, c.err)
		}
	}
	// ---- CONNECTION_CLOSE frames on the wire
	var ccs []shutCC
	for d := 0; d < 2; d++ {
		for _, rec := range w.Log[d] {
			for i, p := range rec.Pkts {
				if !p.Opened || p.Conn == nil || tc == nil || (p.Conn != tc && p.Conn.Main != tc) {
					continue
				}
				for fi := range p.Frames {
					f := &p.Frames[fi]
					if f.Name != "CONNECTION_CLOSE" && f.Name != "CONNECTION_CLOSE_APP" {
						continue
					}
					cc := shutCC{dir: d, main: p.Conn == tc, ord: rec.Ord, sentNS: rec.SentNS, deliveredNS: -1, maybeNS: -1, ptype: p.Type, app: f.Name == "CONNECTION_CLOSE_APP", code: f.Code, reason: f.Reason, ftype: f.FType}
					if len(rec.Delivered) > 0 && rec.PktState[i] == 0 {
						cc.deliveredNS = rec.Delivered[0]
					}
					if len(rec.Delivered) > 0 && rec.PktState[i] != 2 {
						cc.maybeNS = rec.Delivered[0]
					}
					ccs = append(ccs, cc)
				}
			}
		}
	}
	// ---- (1) + (2): every blocked or later call returns promptly with the recorded cause
	for _, c := range s.calls {
		switch c.kind {
		case "dial":
			s.judgeDial(c, v[0])
			continue
		case "lnaccept":
			s.judgeAccept(c)
			continue
		case "dial-later":
			if !c.done || c.retNS > c.startNS+shutPrompt || shutClass(c.err) != "tr-closed" {
				s.report("(2) Dial on a closed transport does not fail at once with the transport-closed error", "done=%v after %v: %v", c.done, time.Duration(c.retNS-c.startNS), c.err)
			} else {
				s.res.Probe("later:tr-closed/dial")
			}
			continue
		}
		sd := s.sides[c.side]
		if sd.end == nil {
			continue
		}
		word := "blocked"
		if c.later {
			word = "later"
		}
		if c.done && c.err == nil {
			if c.later && c.kind == "snddgram" {
				// a known defect that would mask everything else: reported only if nothing else is wrong with the run
				s.deferred = append(s.deferred, [2]string{"(2) SendDatagram on a connection that has ended reports success",
					fmt.Sprintf("side %d: returned nil at %v, connection ended at %v with %v", c.side, time.Duration(c.retNS), time.Duration(sd.end.doneNS), sd.end.cause)})
			} else if c.later && c.kind != "rcvdgram" {
				s.report("(2) "+c.kind+" call issued after the connection ended succeeded", "side %d at %v, connection ended at %v", c.side, time.Duration(c.startNS), time.Duration(sd.end.doneNS))
			}
			continue
		}
		if !sd.end.isDone() {
			if c.done {
				s.report("(3) "+c.kind+" call failed with an error although the connection context is not cancelled", "side %d: %v", c.side, c.err)
			}
			continue
		}
		D := sd.end.doneNS
		cl := shutClass(sd.end.cause)
		if !c.done || c.retNS > max(D, c.startNS)+shutPrompt {
			s.report("(1) "+word+" "+c.kind+" call did not return promptly after the connection ended ("+cl+")", "side %d: call started %v, connection done %v, returned %v (done=%v, err %v)", c.side, time.Duration(c.startNS), time.Duration(D), time.Duration(c.retNS), c.done, c.err)
			continue
		}
		if !shutSameCause(c.err, sd.end.cause) {
			s.report("(2) "+word+" "+c.kind+" call returned an error that is not the connection's recorded cause ("+cl+")", "side %d: call returned %v, context cause %v", c.side, c.err, sd.end.cause)
			continue
		}
		if c.later {
			s.res.Probe("later:" + cl + "/" + c.kind)
		} else if c.startNS < D || c.retNS == D {
			s.res.Probe("blocked:" + cl + "/" + c.kind)
		}
	}
	// ---- (3): the recorded cause is legitimate and matches what the peer sent
	for k := 0; k < 2; k++ {
		if v[k].has && v[k].done {
			s.judgeCause(k, v[k], ccs, tc)
		}
	}
	// the peer is informed: a CONNECTION_CLOSE delivered to an endpoint that completed the handshake ends it at once
	for k := 0; k < 2; k++ {
		if !v[k].has || v[k].complete == 0 {
			continue
		}
		for _, cc := range ccs {
			if cc.dir != 1-k || !cc.main || cc.ptype != Tap1RTT || cc.deliveredNS < 0 || cc.deliveredNS < v[k].complete {
				continue
			}
			if !v[k].done || v[k].doneNS > cc.deliveredNS+shutPrompt {
				s.report("(3) CONNECTION_CLOSE delivered to an endpoint but its connection kept running", "side %d: frame delivered at %v, connection done=%v at %v (%s)", k, time.Duration(cc.deliveredNS), v[k].done, time.Duration(v[k].doneNS), v[k].class)
			}
			break
		}
	}
	// ---- (4) + (5): wire
	for k := 0; k < 2; k++ {
		if v[k].has && tc != nil {
			s.judgeWire(k, v[k], ccs, tc)
		}
	}
	// ---- (5) transport shutdown
	for k := 0; k < 2; k++ {
		if !s.trClosed[k] || s.trCloseNS[k][1] == 0 {
			continue
		}
		if s.trCloseNS[k][1]-s.trCloseNS[k][0] > shutPrompt {
			s.report("(5) Transport.Close did not return promptly", "side %d: took %v", k, time.Duration(s.trCloseNS[k][1]-s.trCloseNS[k][0]))
		}
		if sd := s.sides[k]; sd.conn != nil && sd.availNS <= s.trCloseNS[k][0] && (!sd.end.isDone() || sd.end.doneNS > s.trCloseNS[k][1]+shutPrompt) {
			s.report("(5) connection still running after Transport.Close returned", "side %d", k)
		}
	}
	// ---- exact class: the scripted cause has exactly its documented effect
	if sc.Class == "exact" {
		s.judgeExact(v)
	}
	// never while keep-alives are being answered (healthy network): checked at 3 x idle
	if sc.Cause == "keepalive" && s.aliveChecked {
		s.res.Probe("keepalive-3x-idle-reached")
		healthy := sc.Class == "exact"
		for k := 0; k < 2; k++ {
			if !s.aliveAt[k] && healthy {
				s.report("(6) connection with keep-alive ended while left idle on a healthy network", "side %d ended with %v at %v; idle %v/%v keep-alive %v", k, v[k].cause, time.Duration(v[k].doneNS), s.cfgIdle[0], s.cfgIdle[1], sc.Cfg.KeepAliveMS)
			}
		}
	}
}

func (s *shutRun) judgeDial(c *shutCall, v *shutView) {
	if !c.done {
		s.report("(1) Dial never returned", "started %v", time.Duration(c.startNS))
		return
	}
	if c.err == nil {
		return
	}
	cl := shutClass(c.err)
	switch cl {
	case "dial-horizon":
		s.report("(1) Dial still pending after the handshake timeout", "handshake idle timeout %v, pending for %v", s.hsIdle[0], time.Duration(c.retNS-c.startNS))
		return
	case "dial-cancelled":
		if s.dialCancelNS == 0 || c.retNS > s.dialCancelNS+shutPrompt {
			s.report("(1) Dial did not return promptly after its context was cancelled", "cancelled %v returned %v", time.Duration(s.dialCancelNS), time.Duration(c.retNS))
		}
	case "tr-closed":
		if !s.trClosed[0] || c.retNS > s.trCloseNS[0][1]+shutPrompt {
			s.report("(1) Dial did not return promptly after its transport was closed", "closed %v returned %v", time.Duration(s.trCloseNS[0][1]), time.Duration(c.retNS))
		}
	}
	s.res.Probe("blocked:" + cl + "/dial")
}

func (s *shutRun) judgeAccept(c *shutCall) {
	closedNS := int64(0) // when the listener was shut (return of Close)
	if s.lnCloseNS[1] > 0 {
		closedNS = s.lnCloseNS[1]
	}
	if s.trClosed[1] && s.trCloseNS[1][1] > 0 && (closedNS == 0 || s.trCloseNS[1][1] < closedNS) {
		closedNS = s.trCloseNS[1][1]
	}
	if c.done && c.err == nil {
		return
	}
	if closedNS == 0 {
		return // released by the harness at the end of the run
	}
	cl := shutClass(c.err)
	if !c.done || c.retNS > max(closedNS, c.startNS)+shutPrompt {
		s.report("(1) Listener.Accept did not return promptly after the listener was closed", "started %v, closed %v, returned %v (%v)", time.Duration(c.startNS), time.Duration(closedNS), time.Duration(c.retNS), c.err)
		return
	}
	if cl != "ln-closed" && cl != "tr-closed" {
		s.report("(2) Listener.Accept returned an unexpected error after the listener was closed", "%v", c.err)
		return
	}
	if (cl == "tr-closed") != (s.trClosed[1] && s.trCloseNS[1][1] == closedNS) {
		s.report("(2) Listener.Accept reports the wrong reason for the end of the listener", "%v (listener closed: %v, transport closed: %v)", c.err, s.lnCloseNS[1] > 0, s.trClosed[1])
		return
	}
	s.res.Probe("blocked:" + cl + "/lnaccept")
}

// judgeCause: is the recorded cause of side k legitimate, given the script, the API history and the wire?
func (s *shutRun) judgeCause(k int, v *shutView, ccs []shutCC, tc *TapConn) {
	sc := s.sc
	D := v.doneNS
	switch v.class {
	case "app-remote", "tr-remote":
		if tc == nil {
			return
		}
		ok := false
		for _, cc := range ccs {
			if cc.dir != 1-k || cc.maybeNS < 0 || cc.maybeNS > D {
				continue
			}
			if v.class == "app-remote" {
				var ae *quic.ApplicationError
				errors.As(v.cause, &ae)
				ok = ok || (cc.app && cc.code == uint64(ae.ErrorCode) && cc.reason == ae.ErrorMessage)
			} else {
				var te *quic.TransportError
				errors.As(v.cause, &te)
				ok = ok || (!cc.app && cc.code == uint64(te.ErrorCode) && cc.reason == te.ErrorMessage && cc.ftype == te.FrameType)
			}
		}
		if !ok {
			s.report("(3) remote-close cause matches no CONNECTION_CLOSE frame delivered to the endpoint", "side %d: cause %v at %v; frames on the wire: %+v", k, v.cause, time.Duration(D), ccs)
		}
	case "app-local":
		var ae *quic.ApplicationError
		errors.As(v.cause, &ae)
		ok := false
		for _, cl := range s.sides[k].closes {
			if v.handle && cl.code == uint64(ae.ErrorCode) && cl.reason == ae.ErrorMessage && cl.callNS <= D && (cl.retNS < 0 || D <= cl.retNS+shutPrompt) {
				ok = true
			}
		}
		if !ok {
			s.report("(3) connection reports a local application close the application never issued", "side %d: cause %v at %v; CloseWithError calls %+v", k, v.cause, time.Duration(D), s.sides[k].closes)
		}
	case "tr-local":
		var te *quic.TransportError
		errors.As(v.cause, &te)
		code := uint64(te.ErrorCode)
		crypto := code >= 0x100 && code < 0x200
		switch {
		case sc.Cause == "alpn" && k == 1 && crypto, sc.Cause == "cert" && k == 0 && crypto:
		case sc.Cause == "ln-close" && k == 1 && code == 2 && s.lnCloseNS[0] > 0 && D >= s.lnCloseNS[0] && (v.complete == 0 || v.complete >= s.lnCloseNS[0]):
		case k == 1 && code == 2 && s.trClosed[1] && D >= s.trCloseNS[1][0] && (v.complete == 0 || v.complete >= s.trCloseNS[1][0]):
			// Transport.Close refuses the handshakes that are still in flight (that is what the code does; allowed: a
			// CONNECTION_CLOSE is due for a handshake the server will not complete)
		case sc.Cause == "proto" && k == sc.Side && s.protoNS > 0 && (code == s.protoCode || (s.protoCodeAlt != 0 && code == s.protoCodeAlt)) && D >= s.protoNS:
		case k == 0 && code == 0x0d && sc.Cfg.ChainLen >= 24:
			// a certificate chain larger than the client's crypto buffer: a genuine, locally detected transport error
		default:
			if kf := wKnownC12(s.w, &sc.Cfg, k, code); kf != "" {
				s.res.Blocked = kf
				return
			}
			// not a C17 matter: the network (or nothing at all) made an endpoint raise a transport error
			s.res.Note("C01: network faults alone made an endpoint raise a transport error: " + wErrName(code))
			s.res.Probe("unexpected-local-transport-error")
		}
	case "idle":
		s.judgeIdle(k, v, tc)
	case "hs-timeout":
		// no earlier than 2 x HandshakeIdleTimeout after the connection was created
		created := v.end.createdNS
		if k == 1 {
			created = s.firstDeliveryTo(1)
		}
		if D-created < 2*int64(s.hsIdle[k])-shutPrompt {
			s.report("(6) handshake timeout fired earlier than twice the handshake idle timeout after the connection was created", "side %d: created %v, fired %v, handshake idle timeout %v", k, time.Duration(created), time.Duration(D), s.hsIdle[k])
		}
		if v.complete > 0 && v.complete < D-shutPrompt {
			s.report("(6) handshake timeout on a connection whose handshake had completed", "side %d: complete %v, fired %v", k, time.Duration(v.complete), time.Duration(D))
		}
	case "reset":
		ok := false
		for _, rec := range s.w.Log[1-k] {
			for _, p := range rec.Pkts {
				if !p.Opened && (p.Type == TapUnknown || p.Type == Tap1RTT) && len(rec.Delivered) > 0 && rec.Delivered[0] <= D {
					ok = true
				}
			}
		}
		if k == 0 && s.forgedResetNS > 0 && s.forgedResetNS <= D {
			ok = true // the harness's own forged reset (injected, not in the datagram log)
		}
		if !ok {
			s.report("(3) connection reports a stateless reset although none was delivered to it", "side %d at %v", k, time.Duration(D))
		}
	case "tr-closed":
		if !s.trClosed[k] || D < s.trCloseNS[k][0] || D > s.trCloseNS[k][1]+shutPrompt {
			s.report("(3) connection reports a closed transport although its transport was not being closed", "side %d at %v; transport closed: %v %v", k, time.Duration(D), s.trClosed[k], s.trCloseNS[k])
		}
	case "vn":
		// A long-header packet whose version field was corrupted to zero on the way IS a Version Negotiation packet for the
		// receiver (they are not authenticated): if such a datagram was delivered to this side, the error is the network's.
		forged := wVersionFieldCorrupted(s.w, k, D)
		if forged {
			s.res.Probe("version-field-corrupted-into-a-version-negotiation-packet")
			break
		}
		s.report("(3) version negotiation error between compatible endpoints", "side %d: %v", k, v.cause)
	case "dial-cancelled", "dial-horizon":
	default:
		s.report("(3) connection ended with a cause of no documented kind ("+v.class+")", "side %d: %v", k, v.cause)
	}
}

func (s *shutRun) firstDeliveryTo(k int) int64 {
	first := int64(0)
	for _, rec := range s.w.Log[1-k] {
		if len(rec.Delivered) > 0 && (first == 0 || rec.Delivered[0] < first) {
			first = rec.Delivered[0]
		}
	}
	return first
}

// lastProven: delivery time of the last packet side k acknowledged before ns (0 = none); see World.starvedFor.
func (s *shutRun) idleRefs(k int, tc *TapConn, D int64) (lastDelivery, firstAEAfter int64) {
	for _, rec := range s.w.Log[1-k] {
		for _, t := range rec.Delivered {
			if t <= D && t > lastDelivery {
				lastDelivery = t
			}
		}
	}
	firstAEAfter = lastDelivery
	for _, rec := range s.w.Log[k] {
		if rec.SentNS <= lastDelivery || rec.SentNS > D {
			continue // (a packet sent in the very instant of the last delivery may have been sent before it was processed)
		}
		ae := false
		for _, p := range rec.Pkts {
			// packets of this connection only (a second server-side connection grown from a duplicated ClientHello
			// shares the address); the observer opens every packet of the connection it follows
			if p.Conn == tc && p.Opened && p.AckEliciting() {
				ae = true
			}
		}
		if ae {
			firstAEAfter = rec.SentNS
			break
		}
	}
	return
}

// firstControlAE: the known defect's fingerprint. Returns the send time of a packet q after the last delivery such
// that the timeout fits "q + idle period" and every ack-eliciting packet of the connection sent before q (since the
// last delivery) carried nothing but STREAM frames.
func (s *shutRun) firstControlAE(k int, tc *TapConn, after, D, span int64) int64 {
	onlyStream := true
	first := true
	for _, rec := range s.w.Log[k] {
		if rec.SentNS <= after || rec.SentNS > D {
			continue
		}
		ae, pure := false, true
		for _, p := range rec.Pkts {
			if p.Conn != tc || !p.Opened {
				continue
			}
			for i := range p.Frames {
				if f := &p.Frames[i]; f.AckEliciting() {
					ae = true
					if f.Name != "STREAM" {
						pure = false
					}
				}
			}
		}
		if !ae {
			continue
		}
		if !first && onlyStream && D <= rec.SentNS+span {
			return rec.SentNS
		}
		first = false
		onlyStream = onlyStream && pure
		if !onlyStream {
			return 0
		}
	}
	return 0
}

func (s *shutRun) judgeIdle(k int, v *shutView, tc *TapConn) {
	D := v.doneNS
	complete := v.complete > 0 && v.complete <= D
	// w.starvedFor takes the world's mutex itself
	s.w.mu.Unlock()
	gap := s.w.starvedFor(k, D)
	s.w.mu.Lock()
	lastProven := D - gap
	lastDel, firstAE := s.idleRefs(k, tc, D)
	start := max(lastDel, firstAE, v.end.createdNS)
	if !complete {
		// handshake idle timeout
		ref := max(lastProven, v.end.createdNS)
		if k == 1 && ref == 0 {
			ref = s.firstDeliveryTo(1)
		}
		if D-ref < int64(s.hsIdle[k])-shutPrompt {
			s.report("(6) handshake idle timeout fired earlier than the handshake idle timeout after the last packet the endpoint processed", "side %d: last acknowledged delivery %v, fired %v, handshake idle timeout %v", k, time.Duration(ref), time.Duration(D), s.hsIdle[k])
		}
		if tc != nil && D > start+int64(s.hsIdle[k])+2*shutPrompt {
			s.report("(6) handshake idle timeout fired much later than the handshake idle timeout after the last activity", "side %d: last delivery %v, first ack-eliciting packet sent after it %v, fired %v, handshake idle timeout %v", k, time.Duration(lastDel), time.Duration(firstAE), time.Duration(D), s.hsIdle[k])
		}
		s.res.Probe("idle-timing-checked:handshake")
		return
	}
	// negotiated period per RFC 9000 10.1: min of the two advertised values (read off the wire)
	adv := [2]uint64{}
	if tc != nil && tc.CH != nil {
		adv[0] = tapTPUint(tc.CH.TPs, 1, 0)
		adv[1] = tapTPUint(tc.SrvTP, 1, 0)
	}
	lower := int64(0)
	for _, a := range adv {
		if a > 0 && (lower == 0 || int64(a) < lower) {
			lower = int64(a)
		}
	}
	lower *= int64(time.Millisecond)
	if lower > 0 && D-lastProven < lower-shutPrompt {
		s.report("(6) idle timeout fired earlier than the negotiated idle period after the last packet the endpoint acknowledged", "side %d: last acknowledged delivery %v, fired %v, advertised %v ms", k, time.Duration(lastProven), time.Duration(D), adv)
	}
	if sd := s.sides[k]; v.handle && sd.conn != nil && tc != nil {
		mad := 25 * time.Millisecond
		if tc != nil && tc.CH != nil {
			peer := tc.SrvTP
			if k == 1 {
				peer = tc.CH.TPs
			}
			mad = max(mad, time.Duration(tapTPUint(peer, 0x0b, 25))*time.Millisecond)
		}
		pto := shutPTO(sd.conn, mad)
		upper := start + int64(s.cfgIdle[k]) + 3*int64(pto) + 2*shutPrompt
		if alt := s.firstControlAE(k, tc, lastDel, D, int64(s.cfgIdle[k])+3*int64(pto)+2*shutPrompt); D > upper && alt > 0 {
			// known defect: 1-RTT packets sent through the coalesced-packet path (PTO probes) that carry only STREAM
			// frames are not counted as ack-eliciting when the start of the idle period is recorded
			s.known("(6) idle period restarted by a later packet: probe packets carrying only STREAM frames are not counted as ack-eliciting", "side %d: last delivery %v, first ack-eliciting packet sent after it %v, the packet the period was counted from %v, fired %v; configured %v, PTO %v", k, time.Duration(lastDel), time.Duration(firstAE), time.Duration(alt), time.Duration(D), s.cfgIdle[k], pto)
		} else if D > upper {
			s.report("(6) idle timeout fired much later than the idle period after the last activity", "side %d: last delivery %v, first ack-eliciting packet sent after it %v, fired %v; configured %v, PTO %v", k, time.Duration(lastDel), time.Duration(firstAE), time.Duration(D), s.cfgIdle[k], pto)
		}
		s.res.Probe("idle-timing-checked:established")
	}
}

// judgeWire: CONNECTION_CLOSE where one is due and only there; retransmission with back-off inside the closing
// period; silence afterwards.
func (s *shutRun) judgeWire(k int, v *shutView, ccs []shutCC, tc *TapConn) {
	var mine []shutCC
	for _, cc := range ccs {
		if cc.dir == k && cc.main {
			mine = append(mine, cc)
		}
	}
	local := v.class == "app-local" || v.class == "tr-local"
	if v.done {
		// (5) a connection that has ended sends nothing but (where due) its CONNECTION_CLOSE packet
		for _, p := range tc.Packets {
			if p.Dir != k || p.SentNS <= v.doneNS+shutPrompt {
				continue
			}
			isCC := false
			for i := range p.Frames {
				isCC = isCC || p.Frames[i].Name == "CONNECTION_CLOSE" || p.Frames[i].Name == "CONNECTION_CLOSE_APP"
			}
			if !isCC {
				s.report("(5) connection keeps sending packets after it has ended ("+v.class+")", "side %d: ended %v, packet %s at %v", k, time.Duration(v.doneNS), p.String(), time.Duration(p.SentNS))
				return
			}
		}
		// (5) routing: once the closing period is over the connection's IDs are unknown to the transport again - with a
		// reset key configured a late packet is answered by a stateless reset (never by the old connection)
		if sd := s.sides[k]; v.handle && sd.lateNS > 0 && s.sc.ResetKey && sd.probeLen > 43 && !s.trClosed[k] {
			got := false
			for _, rec := range s.w.Log[k] {
				if rec.SentNS >= sd.lateNS && len(rec.Pkts) == 1 && !rec.Pkts[0].Opened && rec.Pkts[0].Type != TapRetry && rec.Pkts[0].Type != TapVN {
					got = true
				}
			}
			// A delayed client Initial that reaches the server after the connection is gone starts a new server connection
			// under the same destination connection ID (the server cannot know it is stale): the late packets are then
			// routed to that connection, legitimately.
			reborn := false
			if k == 1 {
				for _, rec := range s.w.Log[0] {
					for _, at := range rec.Delivered {
						if at > v.doneNS && len(rec.Pkts) > 0 && rec.Pkts[0].Type == TapInitial {
							reborn = true
						}
					}
				}
			}
			if reborn {
				s.res.Probe("late-packets-routed-to-a-connection-created-by-a-delayed-initial")
			} else if !got {
				s.report("(5) late packet for an ended connection is not treated as belonging to an unknown connection (no stateless reset)", "side %d: ended %v, %d late packets from %v on", k, time.Duration(v.doneNS), s.sc.ProbesLate, time.Duration(sd.lateNS))
				return
			} else {
				s.res.Probe("late-packets-answered-by-stateless-reset")
			}
		}
	}
	if !local {
		if len(mine) > 0 && (v.done || v.class == "alive") {
			internal := true
			for _, cc := range mine {
				internal = internal && !cc.app && cc.code == 1 && strings.Contains(cc.reason, "received a stateless reset")
			}
			if v.class == "reset" && internal {
				// known defect: a stateless reset recognised by the connection itself (packet routed to it: zero-length
				// or matching connection ID) is answered with CONNECTION_CLOSE(INTERNAL_ERROR)
				s.known("(4) stateless reset recognised by the connection itself is answered with CONNECTION_CLOSE (INTERNAL_ERROR)", "side %d: cause %v; frames %+v", k, v.cause, mine)
				return
			}
			s.report("(4) CONNECTION_CLOSE sent although none is due ("+v.class+")", "side %d: cause %v; frames %+v", k, v.cause, mine)
		}
		return
	}
	if s.res.Blocked != "" {
		return
	}
	D := v.doneNS
	if len(mine) == 0 {
		for _, rec := range s.w.Log[k] {
			for _, p := range rec.Pkts {
				if !p.Opened && p.Type != TapRetry && p.Type != TapVN && rec.SentNS >= D-shutPrompt && rec.SentNS <= D+shutPrompt {
					// e.g. an Initial protected with keys derived from a connection ID that was damaged in transit
					s.res.Probe("close-not-observable")
					return
				}
			}
		}
		if len(s.w.Log[k]) > 0 {
			s.report("(4) no CONNECTION_CLOSE on the wire although the endpoint closed the connection ("+v.class+")", "side %d: cause %v at %v", k, v.cause, time.Duration(D))
		}
		return
	}
	var ae *quic.ApplicationError
	var te *quic.TransportError
	errors.As(v.cause, &ae)
	errors.As(v.cause, &te)
	full := false
	for _, cc := range mine {
		ok := false
		if v.class == "app-local" {
			ok = (cc.app && cc.code == uint64(ae.ErrorCode) && cc.reason == ae.ErrorMessage && (cc.ptype == Tap1RTT || cc.ptype == Tap0RTT)) ||
				(!cc.app && cc.code == 0x0c && cc.reason == "" && (cc.ptype == TapInitial || cc.ptype == TapHandshake))
			full = full || cc.app
		} else {
			ok = !cc.app && cc.code == uint64(te.ErrorCode)
			full = true
		}
		if !ok {
			s.report("(4) CONNECTION_CLOSE on the wire does not match the endpoint's recorded cause ("+v.class+")", "side %d: cause %v; frame %+v", k, v.cause, cc)
			return
		}
	}
	if !full && v.complete > 0 {
		s.report("(4) application close after the handshake carries no application CONNECTION_CLOSE (0x1d)", "side %d: frames %+v", k, mine)
	}
	s.res.Probe("wire-close-checked:" + v.class)
	// A client whose handshake is complete but not confirmed (no HANDSHAKE_DONE has reached it) still holds its Handshake
	// keys, and its peer may not be able to read 1-RTT packets yet (its own handshake completes with the client's Finished,
	// which may be lost): the close has to go out at the Handshake level as well (RFC 9000 10.2.3), or the peer never
	// learns of it.
	if k == 0 && v.class == "app-local" && v.complete > 0 && full {
		confirmed := false
		for _, rec := range s.w.Log[1] {
			for i, p := range rec.Pkts {
				if !p.Opened || p.Conn == nil || p.Conn.Shadow || rec.PktState[i] == 2 || len(rec.Delivered) == 0 || rec.Delivered[0] > D {
					continue
				}
				for j := range p.Frames {
					// (HANDSHAKE_DONE confirms, and so does - for this client - an acknowledgement of one of its 1-RTT
					// packets, RFC 9001 4.1.2)
					confirmed = confirmed || p.Frames[j].Name == "HANDSHAKE_DONE" || (p.Type == Tap1RTT && p.Frames[j].Name == "ACK")
				}
			}
		}
		hsLevel := false
		for _, cc := range mine {
			hsLevel = hsLevel || cc.ptype == TapHandshake
		}
		if !confirmed && !hsLevel {
			s.report("(4) client closed before its handshake was confirmed, but the close went out at the 1-RTT level only", "side %d: closed at %v, neither HANDSHAKE_DONE nor a 1-RTT acknowledgement had reached the client; frames %+v", k, time.Duration(D), mine)
		} else if !confirmed {
			s.res.Probe("close-before-confirmation-at-handshake-level")
		}
	}
	// datagrams carrying the frames, in order
	var dg []int64
	seen := map[int]bool{}
	for _, cc := range mine {
		if !seen[cc.ord] {
			seen[cc.ord] = true
			dg = append(dg, cc.sentNS)
		}
	}
	sd := s.sides[k]
	received := func(until int64) int {
		n := 0
		for _, rec := range s.w.Log[1-k] {
			for _, t := range rec.Delivered {
				if t >= D && t <= until {
					n++
				}
			}
		}
		for _, t := range sd.probesNS {
			if t >= D && t <= until {
				n++
			}
		}
		return n
	}
	for j := 1; j < len(dg); j++ {
		s.res.Probe("close-retransmitted")
		if n := received(dg[j]); n < 1<<(j-1) {
			s.report("(4) more CONNECTION_CLOSE retransmissions than the back-off allows", "side %d: retransmission #%d at %v after only %d packets received since the close at %v", k, j, time.Duration(dg[j]), n, time.Duration(D))
			return
		}
	}
	if v.handle && sd.pto > 0 {
		period := 3*int64(sd.pto) + shutPrompt
		for j := 1; j < len(dg); j++ {
			if dg[j] > D+period+shutPrompt {
				s.report("(4) CONNECTION_CLOSE retransmitted after the closing period", "side %d: closed %v, 3 PTO = %v, retransmission at %v", k, time.Duration(D), 3*sd.pto, time.Duration(dg[j]))
				return
			}
		}
		// packets injected inside the closing period are answered, with back-off
		in := 0
		for _, t := range sd.probesNS {
			if t >= D && t < D+3*int64(sd.pto)-shutPrompt && (sd.lateNS == 0 || t < sd.lateNS) {
				in++
			}
		}
		if in > 0 && !(s.trClosed[k] && s.trCloseNS[k][0] <= D+period) {
			want := bits.Len(uint(in)) // floor(log2(in)) + 1
			if len(dg)-1 < want {
				s.report("(4) packets arriving in the closing period are not answered with CONNECTION_CLOSE", "side %d: %d packets injected right after the close, %d retransmissions, expected at least %d (closed at %v, PTO %v, probes at %v, probe starts %x)", k, in, len(dg)-1, want, time.Duration(D), sd.pto, sd.probesNS, sd.probeHead)
				return
			}
			s.res.Probe("closing-period-probed")
		}
	}
}

func (s *shutRun) judgeExact(v [2]*shutView) {
	sc := s.sc
	both := s.sides[0].conn != nil && s.sides[1].conn != nil
	want := func(k int, classes ...string) {
		if !v[k].has {
			return
		}
		if v[k].class == "reset" && sc.ResetKey && len(s.sides[1-k].probesNS) > 0 {
			return // the harness's own late packets to the peer's transport were answered with a stateless reset
		}
		for _, c := range classes {
			if v[k].class == c {
				return
			}
		}
		s.report("(3) fault-free run: "+sc.Cause+" did not end the connection with the expected cause (got "+v[k].class+")", "side %d: cause %v at %v; expected one of %v", k, v[k].cause, time.Duration(v[k].doneNS), classes)
	}
	fired := s.causeFiredNS > 0
	finalClosed := false
	for k := 0; k < 2; k++ {
		for _, cl := range s.sides[k].closes {
			finalClosed = finalClosed || cl.reason == shutDoneMsg
		}
	}
	if finalClosed && (sc.Cause == "idle" || sc.Cause == "tr-close" || sc.Cause == "reset") {
		s.res.Probe("exact-expectation-skipped-horizon")
		return // the harness ran out of patience before the idle periods were over
	}
	switch sc.Cause {
	case "close":
		if both && fired && len(s.sides[sc.Side].closes) > 0 {
			a := sc.Side
			var ae *quic.ApplicationError
			if v[a].class != "app-local" || !errors.As(v[a].cause, &ae) || uint64(ae.ErrorCode) != sc.Code || ae.ErrorMessage != sc.Reason {
				s.report("(3) fault-free run: CloseWithError did not become the connection's cause", "side %d: cause %v, CloseWithError(%#x, %q)", a, v[a].cause, sc.Code, sc.Reason)
			}
			want(1-a, "app-remote", "tr-remote")
		}
	case "proto":
		if both && s.protoNS > 0 {
			want(sc.Side, "tr-local")
			want(1-sc.Side, "tr-remote")
		}
	case "idle":
		if both {
			want(0, "idle")
			want(1, "idle")
		}
	case "reset":
		if both && s.resetDone {
			want(1, "tr-closed")
			poked := false
			for _, rec := range s.w.Log[0] {
				// (only a short-header packet is answered with a stateless reset; late Handshake ACKs are long-header packets)
				poked = poked || (rec.SentNS > s.trCloseNS[1][1] && rec.Size > 43 && len(rec.Delivered) > 0 && len(rec.Pkts) > 0 && rec.Pkts[0].Type == Tap1RTT)
			}
			forged := s.forgedResetNS > 0 // (the judge runs after every goroutine of the workload has finished with it)
			if poked || forged {
				want(0, "reset")
			}
		}
	case "tr-close":
		if both && fired && sc.Base == "est" {
			want(sc.Side, "tr-closed")
			want(1-sc.Side, "idle")
		}
	case "alpn":
		want(0, "tr-remote")
		want(1, "tr-local")
	case "cert":
		want(0, "tr-local")
		want(1, "tr-remote")
	case "hs-silent-server":
		want(0, "idle")
	}
}

// trace feeds the outcome into the run's execution trace (determinism self-test, replay verification).
func (s *shutRun) trace() {
	s.mu.Lock()
	defer s.mu.Unlock()
	var b strings.Builder
	for _, c := range s.calls {
		fmt.Fprintf(&b, "%d%s%v:%d:%d:%s;", c.side, c.kind, c.later, c.startNS, c.retNS, shutClass(c.err))
	}
	for k := 0; k < 2; k++ {
		if e := s.sides[k].end; e != nil {
			fmt.Fprintf(&b, "E%d:%d:%s;", k, e.doneNS, shutClass(e.cause))
		}
	}
	for _, e := range s.srv {
		fmt.Fprintf(&b, "S%d:%s;", e.doneNS, shutClass(e.cause))
	}
	s.res.TraceAdd(b.String())
	s.res.Shape(s.sc.Cause + s.sc.Class)
}

var _ = tls.VersionTLS13
