module github.com/refraction-networking/uquic/verifsim

go 1.26

require (
	github.com/quic-go/qpack v0.6.0
	github.com/refraction-networking/clienthellod v0.5.0-alpha2
	github.com/refraction-networking/uquic v0.0.0
	github.com/refraction-networking/utls v1.7.4-0.20250521174854-63aeec73c564
	golang.org/x/crypto v0.41.0
)

require (
	github.com/andybalholm/brotli v1.1.1 // indirect
	github.com/cloudflare/circl v1.6.1 // indirect
	github.com/google/gopacket v1.1.19 // indirect
	github.com/klauspost/compress v1.18.0 // indirect
	golang.org/x/net v0.43.0 // indirect
	golang.org/x/sys v0.35.0 // indirect
	golang.org/x/text v0.28.0 // indirect
)

replace github.com/refraction-networking/uquic => /repo
