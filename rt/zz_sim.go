package runtime

// Deterministic-simulation seam (overlay, not part of the Go distribution).
// When seeded, select case order and same-instant fake-timer order are drawn
// from dedicated splitmix64 streams instead of the per-M cheaprand state.

var simSelectState uint64
var simTimerState uint64
var simMapState uint64
var simSelectCalls uint64
var simOn bool

func SimSeed(seed uint64) {
	simOn = true
	simSelectState = seed ^ 0x5851f42d4c957f2d
	simTimerState = seed ^ 0x14057b7ef767814f
	simSelectCalls = 0
	simMapState = seed ^ 0x2545f4914f6cdd1d
}

func SimOff() { simOn = false }

func SimSelectCalls() uint64 { return simSelectCalls }

func simMix(s *uint64) uint64 {
	*s += 0x9e3779b97f4a7c15
	z := *s
	z = (z ^ (z >> 30)) * 0xbf58476d1ce4e5b9
	z = (z ^ (z >> 27)) * 0x94d049bb133111eb
	return z ^ (z >> 31)
}

func simSelectRandn(n uint32) uint32 {
	if !simOn {
		return cheaprandn(n)
	}
	if n > 1 {
		simSelectCalls++
	}
	return uint32((uint64(uint32(simMix(&simSelectState))) * uint64(n)) >> 32)
}

func simTimerRand() uint32 {
	if !simOn {
		return cheaprand()
	}
	return uint32(simMix(&simTimerState))
}

var simSchedOn bool
var simSchedState uint64
var simSchedFlips uint64

// SimSched enables seeded perturbation of the run-next slot: a readied
// goroutine is queued at the tail instead of running next with probability
// num/256. Any order it produces is a legal Go schedule.
var simSchedNum uint32

func SimSched(seed uint64, num uint32) {
	simSchedState = seed ^ 0x9e3779b97f4a7c15
	simSchedNum = num
	simSchedFlips = 0
	simSchedOn = num > 0
}

func SimSchedFlips() uint64 { return simSchedFlips }

func simSchedFlip() bool {
	if uint32(simMix(&simSchedState)&0xff) < simSchedNum {
		simSchedFlips++
		return true
	}
	return false
}
